package pipemon

import (
	"context"
	"errors"
	"fmt"
	"hash/fnv"
	"strconv"
	"strings"
	"sync"
	"sync/atomic"
	"time"

	"github.com/ozontech/file.d/fd"
	"github.com/ozontech/file.d/pipeline"
)

// ---------------- recorder ----------------

type recorder struct {
	mu    sync.Mutex
	log   []Rec
	t0    time.Time
	stick *int64
	trace func(any)
}

func (r *recorder) add(x Rec) int64 {
	r.mu.Lock()
	x.T = int64(len(r.log))
	x.WallUs = time.Since(r.t0).Microseconds()
	x.STick = atomic.LoadInt64(r.stick)
	r.log = append(r.log, x)
	t := x.T
	if r.trace != nil {
		r.trace(x)
	}
	r.mu.Unlock()
	return t
}

func (r *recorder) snapshot() []Rec {
	r.mu.Lock()
	defer r.mu.Unlock()
	out := make([]Rec, len(r.log))
	copy(out, r.log)
	return out
}

// the engine currently running in this process (plugins are created by
// factories that cannot take arguments)
var cur *engine

// ---------------- monitoring input ----------------

type monInput struct{ eng *engine }

func (m *monInput) Start(_ pipeline.AnyConfig, params *pipeline.InputPluginParams) {
	m.eng.ctl = params.Controller
	if m.eng.cs.Spread {
		params.Controller.UseSpread()
		params.Controller.DisableStreams()
	}
}
func (m *monInput) Stop() {}
func (m *monInput) Commit(e *pipeline.Event) {
	info := pipeline.VerifInfo(e)
	m.eng.rec.add(Rec{K: "commit", Src: uint64(e.SourceID), Off: e.Offset, Stream: strings.Clone(info.StreamName), Kind: info.Kind})
}

// PassEvent mimics the file input after a restart: a record at or below the
// saved offset of its stream was committed before and is refused.
func (m *monInput) PassEvent(e *pipeline.Event) bool {
	sv := m.eng.saved[uint64(e.SourceID)]
	if sv == nil {
		return true
	}
	if off, ok := sv[pipeline.VerifInfo(e).StreamName]; ok && e.Offset <= off {
		atomic.AddInt64(&m.eng.refusedByInput, 1)
		return false
	}
	return true
}

// ---------------- script action ----------------

type scriptConfig struct {
	Field string `json:"field" default:"op"`
}

type scriptAction struct {
	eng   *engine
	field string
	ctl   pipeline.ActionPluginController
	held  *pipeline.Event
	idx   int
}

func scriptFactory() (pipeline.AnyPlugin, pipeline.AnyConfig) {
	return &scriptAction{eng: cur}, &scriptConfig{}
}

func init() {
	fd.DefaultPluginRegistry.RegisterAction(&pipeline.PluginStaticInfo{Type: "verif_script", Factory: scriptFactory})
}

func (s *scriptAction) Start(c pipeline.AnyConfig, params *pipeline.ActionPluginParams) {
	s.field = c.(*scriptConfig).Field
	if s.field == "" {
		s.field = "op"
	}
	s.ctl = params.Controller
	s.idx = params.Index
	s.eng = cur
}
func (s *scriptAction) Stop() {}

func (s *scriptAction) release() {
	if s.held != nil {
		h := s.held
		s.held = nil
		s.ctl.Propagate(h)
	}
}

func (s *scriptAction) Do(e *pipeline.Event) pipeline.ActionResult {
	if e.IsTimeoutKind() {
		s.eng.rec.add(Rec{K: "act", Act: s.idx, Res: "timeout", Src: uint64(e.SourceID)})
		s.release()
		return pipeline.ActionDiscard
	}
	op := "pass"
	if n := e.Root.Dig(s.field); n != nil {
		op = strings.Clone(n.AsString())
	}
	id := ""
	if n := e.Root.Dig("id"); n != nil {
		id = strings.Clone(n.AsString())
	}
	// a pending hold is released by whatever event follows it in the stream
	s.release()
	res := pipeline.ActionPass
	switch op {
	case "discard":
		res = pipeline.ActionDiscard
	case "break":
		res = pipeline.ActionBreak
	case "collapse":
		res = pipeline.ActionCollapse
	case "hold":
		if !e.IsChildKind() {
			res = pipeline.ActionHold
		}
	}
	// record before returning: the processor finalizes right after
	s.eng.rec.add(Rec{K: "act", Act: s.idx, Res: op, ID: id})
	if res == pipeline.ActionHold {
		s.held = e
	}
	return res
}

// ---------------- monitoring output ----------------

type monOutput struct {
	eng      *engine
	name     string // main | dlq
	spec     OutSpec
	router   *pipeline.Router
	add      func(*pipeline.Event)
	stop     func()
	cancel   context.CancelFunc
	mu       sync.Mutex
	attempts map[int64]int
}

func eventID(e *pipeline.Event) string {
	if e.Root == nil {
		return "<nil-root>"
	}
	if n := e.Root.Dig("id"); n != nil {
		return strings.Clone(n.AsString())
	}
	return "<no-id>"
}

func (o *monOutput) shouldFail(seq int64, att int) bool {
	p := o.spec.FailPlan
	switch {
	case p == "" || p == "none":
		return false
	case p == "all":
		return true
	case strings.HasPrefix(p, "every:"):
		parts := strings.Split(p, ":")
		k, _ := strconv.Atoi(parts[1])
		n, _ := strconv.Atoi(parts[2])
		return k > 0 && seq%int64(k) == 0 && att < n
	case strings.HasPrefix(p, "rand:"):
		pc, _ := strconv.Atoi(strings.TrimPrefix(p, "rand:"))
		h := fnv.New32a()
		fmt.Fprintf(h, "%d|%s|%d|%d", o.eng.cs.Seed, o.name, seq, att)
		return int(h.Sum32()%100) < pc
	}
	return false
}

func (o *monOutput) send(b *pipeline.Batch) error {
	seq, _, _ := pipeline.VerifBatchInfo(b)
	o.mu.Lock()
	att := o.attempts[seq]
	o.attempts[seq] = att + 1
	o.mu.Unlock()
	var ids, pids []string
	for _, e := range pipeline.VerifBatchEvents(b) {
		if e.IsChildParentKind() {
			// outputs never touch a split parent's JSON: identify it by offset
			pids = append(pids, "P:"+o.eng.idByOffset(uint64(e.SourceID), e.Offset))
		}
	}
	b.ForEach(func(e *pipeline.Event) {
		ids = append(ids, o.eng.stableID(e))
		_ = eventID(e) // an output reads the event's JSON tree (encode): keep that access
	})
	o.eng.rec.add(Rec{K: "send.call", Out: o.name, Batch: seq, Att: att, IDs: append(ids, pids...)})
	if n := len(o.spec.DelayUs); n > 0 {
		if d := o.spec.DelayUs[int(seq)%n]; d > 0 {
			time.Sleep(time.Duration(d) * time.Microsecond)
		}
	}
	fail := o.shouldFail(seq, att)
	o.eng.rec.add(Rec{K: "send.ret", Out: o.name, Batch: seq, Att: att, OK: !fail})
	if fail {
		return errors.New("verif: injected send failure")
	}
	o.mu.Lock()
	delete(o.attempts, seq) // the Batch object (and its seq) is reused only after commit
	o.mu.Unlock()
	return nil
}

func (o *monOutput) Start(_ pipeline.AnyConfig, params *pipeline.OutputPluginParams) {
	o.router = params.Router
	o.attempts = map[int64]int{}
	opts := pipeline.BatcherOptions{
		PipelineName: params.PipelineName, OutputType: "verif_" + o.name,
		Controller: params.Controller, Workers: o.spec.Workers,
		BatchSizeCount: o.spec.Count, BatchSizeBytes: o.spec.Bytes,
		FlushTimeout: time.Duration(o.spec.FlushMs) * time.Millisecond,
		MetricCtl:    params.MetricCtl,
	}
	ctx, cancel := context.WithCancel(context.Background())
	o.cancel = cancel
	if o.spec.Plain {
		opts.OutFn = func(_ *pipeline.WorkerData, b *pipeline.Batch) {
			for o.send(b) != nil {
				// a plain batcher output has no way to report failure: it retries itself
				time.Sleep(time.Millisecond)
			}
		}
		b := pipeline.NewBatcher(opts)
		b.Start(ctx)
		o.add, o.stop = b.Add, b.Stop
		return
	}
	onError := func(err error, events []*pipeline.Event) {
		var ids []string
		for _, e := range events {
			if e.IsChildParentKind() {
				ids = append(ids, "P:"+o.eng.idByOffset(uint64(e.SourceID), e.Offset))
				continue
			}
			ids = append(ids, o.eng.stableID(e))
		}
		o.eng.rec.add(Rec{K: "giveup", Out: o.name, IDs: ids, OK: o.router.IsDeadQueueAvailable()})
		for i := range events {
			o.router.Fail(events[i])
		}
	}
	mult := o.spec.Mult
	if mult == 0 {
		mult = 2
	}
	rb := pipeline.NewRetriableBatcher(&opts, func(_ *pipeline.WorkerData, b *pipeline.Batch) error { return o.send(b) },
		pipeline.BackoffOpts{
			MinRetention: time.Duration(o.spec.RetentMs) * time.Millisecond, Multiplier: mult,
			AttemptNum: o.spec.Retry, IsDeadQueueAvailable: o.router.IsDeadQueueAvailable(),
		}, onError)
	rb.Start(ctx)
	o.add, o.stop = rb.Add, rb.Stop
}

func (o *monOutput) Stop() {
	o.stop()
	o.cancel()
}

func (o *monOutput) Out(e *pipeline.Event) {
	if o.name == "dlq" {
		id := ""
		if e.IsChildParentKind() || e.Root == nil {
			id = "P:" + o.eng.idByOffset(uint64(e.SourceID), e.Offset)
		} else {
			id = o.eng.stableID(e)
		}
		o.eng.rec.add(Rec{K: "dlq.out", ID: id})
	}
	o.add(e)
}
