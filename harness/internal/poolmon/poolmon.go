// Package poolmon monitors the two event pools of package pipeline as
// standalone components (C04 layers 1-2, C05 layer 1).
package poolmon

import (
	"encoding/json"
	"fmt"
	"math/rand"
	"sync"
	"sync/atomic"
	"time"

	"github.com/anishathalye/porcupine"
	"github.com/ozontech/file.d/pipeline"
	"github.com/ozontech/file.d/verifhook"

	"verifharness/core"
)

type Viol struct {
	Prop, Sig, What string
	Witness         any
}

// ---------------- directed lost-wake-up scenarios ----------------

type DirCase struct {
	Kind     string // std | low_memory
	Capacity int
	Gate     bool // stop the getter between its availability check and its wait
}

type DirResult struct {
	Case        DirCase
	Viol        []Viol
	WindowHit   bool
	TicksWaited int64
	Inconcl     string
}

func tickName(kind string) string {
	if kind == "std" {
		return "pool.std.tick"
	}
	return "pool.low.tick"
}
func waitName(kind string) string {
	if kind == "std" {
		return "pool.std.beforeWait"
	}
	return "pool.low.beforeWait"
}

func runDirected(cs DirCase) DirResult {
	res := DirResult{Case: cs}
	verifhook.Reset()
	defer verifhook.Reset()
	p := pipeline.VerifNewPool(cs.Kind, cs.Capacity, 256)
	p.SetWakeupInterval(40 * time.Millisecond)
	defer p.Stop()
	var held []*pipeline.Event
	for i := 0; i < cs.Capacity; i++ {
		held = append(held, p.Get(10))
	}
	gate := verifhook.NewGate()
	if cs.Gate {
		verifhook.Arm(waitName(cs.Kind), gate.Arrive)
	}
	done := make(chan *pipeline.Event, 1)
	go func() { done <- p.Get(10) }()
	if cs.Gate {
		if !gate.WaitArrived(20 * time.Second) {
			res.Inconcl = "getter never reached the wait window"
			gate.Release()
			p.Back(held[0])
			<-done
			return res
		}
		res.WindowHit = true
	} else {
		// wait until the getter is parked
		for i := 0; i < 4000 && p.Waiters() == 0; i++ {
			time.Sleep(time.Millisecond)
		}
		time.Sleep(5 * time.Millisecond)
	}
	// capacity is freed while the getter sits inside the window: the broadcast
	// finds nobody waiting
	p.Back(held[0])
	k0 := verifhook.Hits(tickName(cs.Kind))
	gate.Release()
	wall := time.Now()
	for {
		select {
		case e := <-done:
			res.TicksWaited = verifhook.Hits(tickName(cs.Kind)) - k0
			p.Back(e)
			for _, h := range held[1:] {
				p.Back(h)
			}
			if n := p.RawInUse(); n != 0 {
				res.Viol = append(res.Viol, Viol{"C05", "pool-inuse-nonzero-after-directed:" + cs.Kind, fmt.Sprintf("in-use counter %d after everything was returned", n), cs})
			}
			return res
		default:
		}
		k := verifhook.Hits(tickName(cs.Kind)) - k0
		if k >= 6 {
			res.TicksWaited = k
			res.Viol = append(res.Viol, Viol{"C04", "pool-lost-wakeup-not-repaired:" + cs.Kind,
				fmt.Sprintf("%s pool, capacity %d: a reader that entered get() on a full pool is still parked after %d pool heartbeat ticks although capacity was freed (in use %d of %d, waiters %d)", cs.Kind, cs.Capacity, k, p.RawInUse(), cs.Capacity, p.Waiters()), cs})
			// unblock to let the goroutine end
			e2 := p.Get(10) // takes the free slot; then give two back
			p.Back(e2)
			return res
		}
		if time.Since(wall) > 20*time.Second && k == 0 {
			res.Viol = append(res.Viol, Viol{"C04", "pool-heartbeat-not-running:" + cs.Kind,
				fmt.Sprintf("%s pool: a reader is parked with capacity free and the pool heartbeat never ticked in 20 s (interval 40 ms)", cs.Kind), cs})
			return res
		}
		time.Sleep(2 * time.Millisecond)
	}
}

// ---------------- stress with exact outstanding-set monitor + porcupine ----------------

type StressCase struct {
	Kind      string
	Capacity  int
	Workers   int
	OpsPer    int
	MaxSize   int
	Seed      int64
	WindowPct int // probability (%) of a sleep inside the check→wait window
	HoldUs    int
}

type StressResult struct {
	Case        StressCase
	Viol        []Viol
	Inconcl     string
	MaxOut      int
	WaitersSeen int64
	SizeClasses int
	Ops         int
	Porcupine   string
	WindowHits  int64
}

type semIn struct {
	Get bool
}

func semModel(capacity int) porcupine.Model {
	return porcupine.Model{
		Init: func() any { return 0 },
		Step: func(st, in, _ any) (bool, any) {
			n := st.(int)
			if in.(semIn).Get {
				return n < capacity, n + 1
			}
			return n > 0, n - 1
		},
		Equal: func(a, b any) bool { return a.(int) == b.(int) },
	}
}

func runStress(cs StressCase) StressResult {
	res := StressResult{Case: cs}
	verifhook.Reset()
	defer verifhook.Reset()
	p := pipeline.VerifNewPool(cs.Kind, cs.Capacity, 256)
	p.SetWakeupInterval(40 * time.Millisecond)
	defer p.Stop()
	wrng := rand.New(rand.NewSource(cs.Seed ^ 77))
	var wmu sync.Mutex
	var windowHits int64
	verifhook.Arm(waitName(cs.Kind), func() {
		atomic.AddInt64(&windowHits, 1)
		wmu.Lock()
		hit := wrng.Intn(100) < cs.WindowPct
		wmu.Unlock()
		if hit {
			time.Sleep(300 * time.Microsecond)
		}
	})
	var mu sync.Mutex
	outstanding := map[*pipeline.Event]bool{}
	var ops []porcupine.Operation
	t0 := time.Now()
	now := func() int64 { return int64(time.Since(t0)) }
	addV := func(sig, what string) {
		if len(res.Viol) < 4 {
			res.Viol = append(res.Viol, Viol{"C05", sig + ":" + cs.Kind, what, cs})
		}
	}
	classes := map[int]bool{}
	var completed, waitersSeen int64
	// where every worker is: 1 inside Get, 2 holding an event (harness code),
	// 3 inside Back, 9 finished. A worker that is slow for reasons outside the
	// pool (allocation, GC assist, scheduling on a loaded machine) is in 2 or 3
	// (Back allocates), a reader that waits for capacity is in 1.
	wstate := make([]int32, cs.Workers)
	defer func() { res.WaitersSeen = atomic.LoadInt64(&waitersSeen) }()
	var wg sync.WaitGroup
	for w := 0; w < cs.Workers; w++ {
		wg.Add(1)
		go func(w int) {
			defer wg.Done()
			rng := rand.New(rand.NewSource(cs.Seed + int64(w)))
			for i := 0; i < cs.OpsPer; i++ {
				size := 0
				if cs.MaxSize > 0 {
					size = rng.Intn(cs.MaxSize + 1)
					if rng.Intn(8) == 0 {
						size = cs.MaxSize * (1 + rng.Intn(64))
					}
				}
				c0 := now()
				atomic.StoreInt32(&wstate[w], 1)
				e := p.Get(size)
				atomic.StoreInt32(&wstate[w], 2)
				c1 := now()
				mu.Lock()
				if outstanding[e] {
					addV("pool-double-handout", "get returned an event object that is still outstanding")
				}
				outstanding[e] = true
				if n := len(outstanding); n > res.MaxOut {
					res.MaxOut = n
				}
				if len(outstanding) > cs.Capacity {
					addV("pool-capacity-exceeded", fmt.Sprintf("%d events outstanding > capacity %d", len(outstanding), cs.Capacity))
				}
				if e.Size != size {
					addV("pool-event-size-not-set", fmt.Sprintf("get(%d) returned an event with Size %d", size, e.Size))
				}
				c := 0
				for s := size; s > 0; s >>= 1 {
					c++
				}
				classes[c] = true
				ops = append(ops, porcupine.Operation{ClientId: w, Input: semIn{true}, Call: c0, Output: 0, Return: c1})
				mu.Unlock()
				if p.Waiters() > 0 {
					atomic.AddInt64(&waitersSeen, 1)
				}
				if cs.HoldUs > 0 {
					time.Sleep(time.Duration(rng.Intn(cs.HoldUs+1)) * time.Microsecond)
				}
				mu.Lock()
				if !outstanding[e] {
					addV("pool-back-of-free-event", "returning an event that is not outstanding")
				}
				delete(outstanding, e)
				mu.Unlock()
				b0 := now()
				atomic.StoreInt32(&wstate[w], 3)
				p.Back(e)
				atomic.StoreInt32(&wstate[w], 2)
				b1 := now()
				mu.Lock()
				ops = append(ops, porcupine.Operation{ClientId: w, Input: semIn{false}, Call: b0, Output: 0, Return: b1})
				mu.Unlock()
				atomic.AddInt64(&completed, 1)
			}
			atomic.StoreInt32(&wstate[w], 9)
		}(w)
	}
	finished := make(chan struct{})
	go func() { wg.Wait(); close(finished) }()
	// bounded progress in pool heartbeat ticks
	last, lastTick := int64(-1), verifhook.Hits(tickName(cs.Kind))
	wall := time.Now()
loop:
	for {
		select {
		case <-finished:
			break loop
		default:
		}
		n := atomic.LoadInt64(&completed)
		tick := verifhook.Hits(tickName(cs.Kind))
		if n != last {
			last, lastTick, wall = n, tick, time.Now()
		}
		if tick-lastTick >= 25 {
			mu.Lock()
			out := len(outstanding)
			mu.Unlock()
			inGet, elsewhere := 0, 0
			for i := range wstate {
				switch atomic.LoadInt32(&wstate[i]) {
				case 1:
					inGet++
				case 2, 3:
					elsewhere++
				}
			}
			switch {
			case elsewhere == 0 && inGet > 0 && out < cs.Capacity:
				// every unfinished worker sits inside Get, nobody holds an event
				// or is returning one: nothing but a wake-up can be missing
				res.Viol = append(res.Viol, Viol{"C04", "pool-waiter-parked-with-free-capacity:" + cs.Kind,
					fmt.Sprintf("%s pool: no get/back completed during %d pool heartbeat ticks, %d of %d events outstanding, all %d unfinished workers are inside get (%d parked on the condition variable)", cs.Kind, tick-lastTick, out, cs.Capacity, inGet, p.Waiters()), cs})
			case tick-lastTick >= 400:
				// a worker inside Back or between the calls for 400 ticks: Back
				// never returns (or the machine is not running this process)
				res.Viol = append(res.Viol, Viol{"C04", "pool-back-never-returns:" + cs.Kind,
					fmt.Sprintf("%s pool: no get/back completed during %d pool heartbeat ticks, %d workers inside get, %d inside back or between the calls", cs.Kind, tick-lastTick, inGet, elsewhere), cs})
			default:
				// workers are busy outside Get (Back allocates; a loaded machine
				// stretches that): keep watching
				time.Sleep(time.Millisecond)
				continue
			}
			res.Ops = int(n)
			res.WindowHits = atomic.LoadInt64(&windowHits)
			return res // leaves goroutines behind; the child exits after its cases
		}
		if time.Since(wall) > 30*time.Second && tick == lastTick {
			// make sure it is the heartbeat that stands still, not this whole process
			time.Sleep(2 * time.Second)
			if verifhook.Hits(tickName(cs.Kind)) != tick || atomic.LoadInt64(&completed) != n {
				wall = time.Now()
				continue
			}
			mu.Lock()
			out := len(outstanding)
			mu.Unlock()
			if out < cs.Capacity && p.Waiters() > 0 {
				res.Viol = append(res.Viol, Viol{"C04", "pool-heartbeat-not-running:" + cs.Kind, "readers parked with free capacity and the pool heartbeat does not tick", cs})
			} else {
				res.Inconcl = "stress stalled (wall clock)"
			}
			return res
		}
		time.Sleep(time.Millisecond)
	}
	res.Ops = int(atomic.LoadInt64(&completed))
	res.WindowHits = atomic.LoadInt64(&windowHits)
	res.SizeClasses = len(classes)
	if n := p.RawInUse(); n != 0 {
		addV("pool-inuse-nonzero-at-idle", fmt.Sprintf("all events returned but the in-use counter is %d", n))
	}
	if len(ops) <= 400 {
		r := porcupine.CheckOperationsTimeout(semModel(cs.Capacity), ops, 30*time.Second)
		switch r {
		case porcupine.Ok:
			res.Porcupine = "ok"
		case porcupine.Illegal:
			res.Porcupine = "illegal"
			addV("pool-history-not-linearizable", fmt.Sprintf("the get/back history (%d operations) is not linearizable against a counting semaphore of capacity %d", len(ops), cs.Capacity))
		default:
			res.Porcupine = "unknown"
		}
	}
	return res
}

// ---------------- child + drivers ----------------

type childIn struct {
	Dir    []DirCase
	Stress []StressCase
}
type childOut struct {
	Dir    []DirResult
	Stress []StressResult
}

// Register registers the child workload.
func Register() {
	core.RegisterChild("poolmon", func(raw json.RawMessage, io *core.ChildIO) (any, error) {
		var in childIn
		if err := json.Unmarshal(raw, &in); err != nil {
			return nil, err
		}
		var out childOut
		for _, d := range in.Dir {
			io.Log(d)
			out.Dir = append(out.Dir, runDirected(d))
		}
		for _, s := range in.Stress {
			io.Log(s)
			out.Stress = append(out.Stress, runStress(s))
		}
		return out, nil
	})
}

func report(c *core.Ctx, prop string, v Viol) {
	if v.Prop == prop {
		c.Violation(prop+":"+v.Sig, v.What, v.Witness)
	} else {
		c.Count("observations_for_"+v.Prop, 1)
	}
}

func crash(c *core.Ctx, prop string, r *core.ChildResult) {
	msg, site := core.PanicSite(r.Stderr)
	if r.TimedOut {
		c.Inconclusive("pool child watchdog")
		return
	}
	c.Violation(fmt.Sprintf("%s:pool-crash:%s@%s", prop, core.NormalizeMsg(msg), site), "process died while driving an event pool: "+msg,
		map[string]any{"last": r.LastLog(), "stderr": core.Trunc(r.Stderr, 3000)})
}

// RunDirected runs the gate-directed lost-wake-up scenarios.
func RunDirected(c *core.Ctx, prop string) {
	var cases []DirCase
	reps := c.N(2, 20)
	for rep := 0; rep < reps; rep++ {
		for _, k := range []string{"std", "low_memory"} {
			for capn := 1; capn <= 3; capn++ {
				cases = append(cases, DirCase{k, capn, true}, DirCase{k, capn, false})
			}
		}
	}
	var groups [][]DirCase
	for i := 0; i < len(cases); i += 6 {
		j := i + 6
		if j > len(cases) {
			j = len(cases)
		}
		groups = append(groups, cases[i:j])
	}
	var mu sync.Mutex
	core.ParallelFor(len(groups), 8, func(i int) {
		r := core.RunChild("poolmon", childIn{Dir: groups[i]}, core.ChildOpt{Timeout: 5 * time.Minute, GOMAXPROCS: []int{1, 2, 4}[i%3]})
		mu.Lock()
		defer mu.Unlock()
		if !r.Completed {
			c.Eval(1)
			crash(c, prop, r)
			return
		}
		var out childOut
		_ = json.Unmarshal(r.Out, &out)
		for _, d := range out.Dir {
			c.Eval(1)
			if d.Inconcl != "" {
				c.Inconclusive(d.Inconcl)
				continue
			}
			for _, v := range d.Viol {
				report(c, prop, v)
			}
			if d.WindowHit {
				c.Count("lost_wakeup_window_entered", 1)
			}
			c.Nontrivial(fmt.Sprintf("directed kind=%s cap=%d gate=%v ticks=%d", d.Case.Kind, d.Case.Capacity, d.Case.Gate, min64(d.TicksWaited, 3)))
			if d.Case.Gate && d.Case.Capacity == 1 {
				c.Sample(d)
			}
		}
	})
	if c.Counter("lost_wakeup_window_entered") == 0 {
		c.Fatal("the check→wait window of the pools was never entered by a gated reader")
	}
}

func min64(a, b int64) int64 {
	if a < b {
		return a
	}
	return b
}

// RunStress runs seeded stress cases on both pools.
func RunStress(c *core.Ctx, prop string) {
	rng := c.Rand("pool-stress")
	n := c.N(48, 800)
	var cases []StressCase
	for i := 0; i < n; i++ {
		cs := StressCase{
			Kind: []string{"std", "low_memory"}[i%2], Capacity: 1 + rng.Intn(8), Workers: 2 + rng.Intn(15),
			MaxSize: []int{0, 100, 4096, 1 << 14}[rng.Intn(4)], Seed: c.SubSeed("pool-stress", i),
			WindowPct: []int{0, 30, 80}[rng.Intn(3)], HoldUs: []int{0, 20, 200}[rng.Intn(3)],
		}
		if i%3 == 0 {
			cs.OpsPer = 6 + rng.Intn(10) // short history: porcupine
			if cs.Workers > 8 {
				cs.Workers = 8
			}
		} else {
			cs.OpsPer = 200 + rng.Intn(1500)
		}
		cases = append(cases, cs)
	}
	var groups [][]StressCase
	for i := 0; i < len(cases); i += 6 {
		j := i + 6
		if j > len(cases) {
			j = len(cases)
		}
		groups = append(groups, cases[i:j])
	}
	var mu sync.Mutex
	core.ParallelFor(len(groups), 6, func(i int) {
		r := core.RunChild("poolmon", childIn{Stress: groups[i]}, core.ChildOpt{Timeout: 8 * time.Minute, GOMAXPROCS: []int{2, 4, 8, 16}[i%4]})
		mu.Lock()
		defer mu.Unlock()
		if !r.Completed {
			c.Eval(1)
			crash(c, prop, r)
			return
		}
		var out childOut
		_ = json.Unmarshal(r.Out, &out)
		for _, s := range out.Stress {
			c.Eval(1)
			if s.Inconcl != "" {
				c.Inconclusive(s.Inconcl)
			}
			for _, v := range s.Viol {
				report(c, prop, v)
			}
			c.Count("pool_ops", int64(s.Ops))
			c.Count("pool_waiters_seen", s.WaitersSeen)
			c.Count("pool_window_hits", s.WindowHits)
			switch s.Porcupine {
			case "ok":
				c.Count("porcupine_histories_ok", 1)
			case "unknown":
				c.Inconclusive("porcupine timeout")
			}
			if s.MaxOut == s.Case.Capacity {
				c.Nontrivial(fmt.Sprintf("stress kind=%s cap=%d w=%d waiters=%v classes=%d window=%v", s.Case.Kind, s.Case.Capacity, s.Case.Workers, s.WaitersSeen > 0, s.SizeClasses, s.WindowHits > 0))
			}
		}
		for _, rr := range r.RaceReports {
			c.Count("race_reports", 1)
			c.Violation(prop+":pool-race:"+core.RaceKey(rr), "data race while driving an event pool", core.Trunc(rr, 4000))
		}
	})
}
