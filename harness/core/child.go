package core

import (
	"bufio"
	"bytes"
	"encoding/json"
	"fmt"
	"os"
	"os/exec"
	"path/filepath"
	"strings"
	"sync"
	"syscall"
	"time"
)

// ChildIO lets a child workload append to its on-disk command/event log
// before it does something that may kill the process.
type ChildIO struct {
	mu   sync.Mutex
	logf *os.File
	Dir  string // scratch directory of this child (removed by the parent)
}

// Log appends one JSON line (one write syscall; survives a later crash).
func (c *ChildIO) Log(v any) {
	b, err := json.Marshal(v)
	if err != nil {
		b = []byte(fmt.Sprintf("{\"marshal_error\":%q}", err.Error()))
	}
	b = append(b, '\n')
	c.mu.Lock()
	_, _ = c.logf.Write(b)
	c.mu.Unlock()
}

// LogRaw appends pre-encoded lines.
func (c *ChildIO) LogRaw(b []byte) {
	c.mu.Lock()
	_, _ = c.logf.Write(b)
	c.mu.Unlock()
}

// ChildFn is a workload executed in a child process.
type ChildFn func(in json.RawMessage, io *ChildIO) (any, error)

var children = map[string]ChildFn{}

// RegisterChild registers a workload under a name (call from init or main
// before core.Main).
func RegisterChild(name string, fn ChildFn) { children[name] = fn }

func runChildMode(args []string) {
	if len(args) < 3 {
		fmt.Fprintln(os.Stderr, "child: usage: child <name> <in> <out>")
		os.Exit(3)
	}
	name, inPath, outPath := args[0], args[1], args[2]
	fn := children[name]
	if fn == nil {
		fmt.Fprintf(os.Stderr, "child: unknown workload %q\n", name)
		os.Exit(3)
	}
	in, err := os.ReadFile(inPath)
	if err != nil {
		fmt.Fprintf(os.Stderr, "child: %v\n", err)
		os.Exit(3)
	}
	lf, err := os.OpenFile(outPath+".log", os.O_CREATE|os.O_WRONLY|os.O_APPEND, 0o644)
	if err != nil {
		fmt.Fprintf(os.Stderr, "child: %v\n", err)
		os.Exit(3)
	}
	cio := &ChildIO{logf: lf, Dir: filepath.Dir(outPath)}
	out, err := fn(in, cio)
	if err != nil {
		fmt.Fprintf(os.Stderr, "child: workload error: %v\n", err)
		os.Exit(4)
	}
	b, err := json.Marshal(out)
	if err != nil {
		fmt.Fprintf(os.Stderr, "child: cannot encode output: %v\n", err)
		os.Exit(4)
	}
	if err := os.WriteFile(outPath+".tmp", b, 0o644); err != nil {
		os.Exit(4)
	}
	_ = os.Rename(outPath+".tmp", outPath)
	os.Exit(0)
}

// ChildOpt controls a child run.
type ChildOpt struct {
	Timeout    time.Duration // wall-clock watchdog (generous); firing => TimedOut (inconclusive by itself)
	Env        []string
	GOMAXPROCS int
	Prefix     []string // command prefix, e.g. strace ...
	KeepDir    bool
	Dir        string // use this scratch dir instead of a fresh one
}

// ChildResult is what the parent learns about a child run.
type ChildResult struct {
	ExitCode    int
	Signal      string
	TimedOut    bool
	Completed   bool // the workload returned and wrote its output
	Out         json.RawMessage
	Log         []json.RawMessage
	Stderr      string // tail of combined stdout/stderr
	RaceReports []string
	Dir         string
	WallS       float64
}

// Crashed reports an abnormal end that is not the watchdog.
func (r *ChildResult) Crashed() bool { return !r.Completed && !r.TimedOut }

// LastLog returns the last logged command, or nil.
func (r *ChildResult) LastLog() json.RawMessage {
	if len(r.Log) == 0 {
		return nil
	}
	return r.Log[len(r.Log)-1]
}

// ScratchBase is where scratch directories are created (outside /repo and /verif).
func ScratchBase() string {
	if d := os.Getenv("VERIF_SCRATCH"); d != "" {
		return d
	}
	return os.TempDir()
}

// RunChild runs a registered workload in a fresh process of this binary.
func RunChild(name string, in any, opt ChildOpt) *ChildResult {
	res := &ChildResult{ExitCode: -1}
	dir := opt.Dir
	if dir == "" {
		var err error
		dir, err = os.MkdirTemp(ScratchBase(), "verif-child-")
		if err != nil {
			res.Stderr = err.Error()
			return res
		}
	}
	res.Dir = dir
	if !opt.KeepDir {
		defer os.RemoveAll(dir)
	}
	inPath := filepath.Join(dir, "in.json")
	outPath := filepath.Join(dir, "out.json")
	b, err := json.Marshal(in)
	if err != nil {
		res.Stderr = "marshal input: " + err.Error()
		return res
	}
	if err := os.WriteFile(inPath, b, 0o644); err != nil {
		res.Stderr = err.Error()
		return res
	}
	self, _ := os.Executable()
	argv := append(append([]string{}, opt.Prefix...), self, "child", name, inPath, outPath)
	cmd := exec.Command(argv[0], argv[1:]...)
	stdPath := filepath.Join(dir, "std.log")
	stdf, _ := os.Create(stdPath)
	cmd.Stdout = stdf
	cmd.Stderr = stdf
	cmd.Dir = dir
	env := os.Environ()
	env = append(env, "GORACE=halt_on_error=0 exitcode=0 log_path="+filepath.Join(dir, "race"))
	if opt.GOMAXPROCS > 0 {
		env = append(env, fmt.Sprintf("GOMAXPROCS=%d", opt.GOMAXPROCS))
	}
	env = append(env, "GOTRACEBACK=all")
	env = append(env, opt.Env...)
	cmd.Env = env
	cmd.SysProcAttr = &syscall.SysProcAttr{Setpgid: true}
	t0 := time.Now()
	if err := cmd.Start(); err != nil {
		res.Stderr = "start: " + err.Error()
		stdf.Close()
		return res
	}
	done := make(chan error, 1)
	go func() { done <- cmd.Wait() }()
	timeout := opt.Timeout
	if timeout == 0 {
		timeout = 5 * time.Minute
	}
	var werr error
	select {
	case werr = <-done:
	case <-time.After(timeout):
		res.TimedOut = true
		_ = syscall.Kill(-cmd.Process.Pid, syscall.SIGQUIT)
		select {
		case werr = <-done:
		case <-time.After(10 * time.Second):
			_ = syscall.Kill(-cmd.Process.Pid, syscall.SIGKILL)
			werr = <-done
		}
	}
	res.WallS = time.Since(t0).Seconds()
	stdf.Close()
	if werr != nil {
		if ee, ok := werr.(*exec.ExitError); ok {
			res.ExitCode = ee.ExitCode()
			if ws, ok := ee.Sys().(syscall.WaitStatus); ok && ws.Signaled() {
				res.Signal = ws.Signal().String()
			}
		}
	} else {
		res.ExitCode = 0
	}
	if ob, err := os.ReadFile(outPath); err == nil {
		res.Out = ob
		res.Completed = res.ExitCode == 0
	}
	if lf, err := os.Open(outPath + ".log"); err == nil {
		sc := bufio.NewScanner(lf)
		sc.Buffer(make([]byte, 1<<20), 1<<28)
		for sc.Scan() {
			line := append([]byte(nil), sc.Bytes()...)
			if json.Valid(line) {
				res.Log = append(res.Log, line)
			}
		}
		lf.Close()
	}
	res.Stderr = tailFile(stdPath, 48<<10)
	matches, _ := filepath.Glob(filepath.Join(dir, "race.*"))
	for _, m := range matches {
		rb, err := os.ReadFile(m)
		if err != nil {
			continue
		}
		res.RaceReports = append(res.RaceReports, splitRaceReports(string(rb))...)
	}
	return res
}

func tailFile(path string, n int64) string {
	f, err := os.Open(path)
	if err != nil {
		return ""
	}
	defer f.Close()
	st, err := f.Stat()
	if err != nil {
		return ""
	}
	off := int64(0)
	if st.Size() > n {
		off = st.Size() - n
	}
	buf := make([]byte, st.Size()-off)
	_, _ = f.ReadAt(buf, off)
	return string(buf)
}

func splitRaceReports(s string) []string {
	var out []string
	parts := strings.Split(s, "WARNING: DATA RACE")
	for _, p := range parts[1:] {
		if i := strings.Index(p, "=================="); i >= 0 {
			p = p[:i]
		}
		out = append(out, "WARNING: DATA RACE"+p)
	}
	return out
}

// RaceKey de-duplicates a race report: the pair of top frames' function
// names with line numbers stripped.
func RaceKey(report string) string {
	var fns []string
	lines := strings.Split(report, "\n")
	for i, l := range lines {
		if strings.HasPrefix(l, "Read at") || strings.HasPrefix(l, "Write at") || strings.HasPrefix(l, "Previous read at") || strings.HasPrefix(l, "Previous write at") {
			if i+1 < len(lines) {
				fn := strings.TrimSpace(lines[i+1])
				fn = strings.TrimSuffix(fn, "()")
				fn = strings.TrimPrefix(fn, "github.com/ozontech/")
				fns = append(fns, fn)
			}
		}
	}
	return strings.Join(fns, " <-> ")
}

// PanicSite extracts a short classification of a Go crash from stderr:
// the panic/fatal message and the first file.d (or harness) frame.
func PanicSite(stderr string) (msg, site string) {
	lines := strings.Split(stderr, "\n")
	start := -1
	for i, l := range lines {
		if strings.HasPrefix(l, "panic: ") || strings.HasPrefix(l, "fatal error: ") {
			start = i
			msg = l
			break
		}
	}
	if start < 0 {
		for i, l := range lines {
			if strings.Contains(l, "\tFATAL\t") || strings.Contains(l, "\tPANIC\t") || strings.Contains(l, "\"level\":\"fatal\"") || strings.Contains(l, "\"level\":\"panic\"") {
				msg = trunc(l, 300)
				start = i
				break
			}
		}
	}
	if start < 0 {
		return "", ""
	}
	for _, l := range lines[start:] {
		t := strings.TrimSpace(l)
		if strings.HasPrefix(t, "/repo/") && !strings.Contains(t, "/repo/logger/") {
			if j := strings.Index(t, " "); j > 0 {
				t = t[:j]
			}
			site = strings.TrimPrefix(t, "/repo/")
			break
		}
	}
	// normalise numbers in runtime error messages ("index out of range [5] with length 3")
	return msg, site
}

// NormalizeMsg strips digits so that a panic message classifies by shape.
func NormalizeMsg(m string) string {
	var b bytes.Buffer
	prevDigit := false
	for _, r := range m {
		if r >= '0' && r <= '9' {
			if !prevDigit {
				b.WriteByte('N')
			}
			prevDigit = true
			continue
		}
		prevDigit = false
		b.WriteRune(r)
	}
	return trunc(b.String(), 160)
}

// PanicFunc is like PanicSite but classifies by the function name of the
// first /repo frame (stable across unrelated edits), e.g.
// "pipeline.(*stream).tryUnblock".
func PanicFunc(stderr string) (msg, fn string) {
	msg, _ = PanicSite(stderr)
	lines := strings.Split(stderr, "\n")
	start := 0
	for i, l := range lines {
		if strings.HasPrefix(l, "panic: ") || strings.HasPrefix(l, "fatal error: ") {
			start = i
			break
		}
	}
	for i := start; i+1 < len(lines); i++ {
		t := strings.TrimSpace(lines[i+1])
		if strings.HasPrefix(t, "/repo/") && !strings.Contains(t, "/repo/logger/") {
			f := strings.TrimSpace(lines[i])
			if j := strings.LastIndex(f, "("); j > 0 {
				f = f[:j]
			}
			f = strings.TrimPrefix(f, "github.com/ozontech/file.d/")
			return msg, f
		}
	}
	return msg, ""
}
