// Package core is the common runtime of every property check: seeds, tiers,
// verdict bookkeeping (violated / held / inconclusive), known findings,
// evidence files, replays and child-process workloads.
package core

import (
	"encoding/json"
	"fmt"
	"hash/fnv"
	"math/rand"
	"os"
	"path/filepath"
	"sort"
	"strconv"
	"strings"
	"sync"
	"time"
)

// Root is the /verif directory (VERIF_ROOT overrides).
func Root() string {
	if r := os.Getenv("VERIF_ROOT"); r != "" {
		return r
	}
	return "/verif"
}

type violation struct {
	Signature string `json:"signature"`
	What      string `json:"what"`
	Witness   any    `json:"witness"`
	Replay    string `json:"replay,omitempty"`
}

type finding struct {
	Property  string `json:"property"`
	Signature string `json:"signature"`
	What      string `json:"what"`
}

type findingsFile struct {
	Findings []finding `json:"findings"`
	Fixed    []string  `json:"fixed"`
}

// Ctx collects what one run of one check observed.
type Ctx struct {
	ID    string
	Tier  string
	Seed  int64
	Level string

	start time.Time
	mu    sync.Mutex

	evals        int64
	distinct     map[string]struct{}
	samples      []any
	maxSamples   int
	extra        map[string]any
	counters     map[string]int64
	assumptions  []string
	rule         string
	exhaustive   bool
	violations   []violation
	knownSeen    map[string]int
	known        []finding
	inconclusive int
	inconReasons map[string]int
	replayArg    string
	fatalErr     string
}

// Thorough reports whether the thorough tier is running.
func (c *Ctx) Thorough() bool { return c.Tier == "thorough" }

// N picks a per-tier size.
func (c *Ctx) N(quick, thorough int) int {
	if c.Thorough() {
		return thorough
	}
	return quick
}

// Rand returns a deterministic PRNG for the named stream of this run.
func (c *Ctx) Rand(stream string) *rand.Rand {
	h := fnv.New64a()
	fmt.Fprintf(h, "%s|%s|%d", c.ID, stream, c.Seed)
	return rand.New(rand.NewSource(int64(h.Sum64())))
}

// SubSeed derives a seed for a numbered case.
func (c *Ctx) SubSeed(stream string, i int) int64 {
	h := fnv.New64a()
	fmt.Fprintf(h, "%s|%s|%d|%d", c.ID, stream, c.Seed, i)
	return int64(h.Sum64() >> 1)
}

func (c *Ctx) SetRule(s string)     { c.mu.Lock(); c.rule = s; c.mu.Unlock() }
func (c *Ctx) SetExhaustive(b bool) { c.mu.Lock(); c.exhaustive = b; c.mu.Unlock() }
func (c *Ctx) Assume(s string)      { c.mu.Lock(); c.assumptions = append(c.assumptions, s); c.mu.Unlock() }

// Eval counts n evaluated cases.
func (c *Ctx) Eval(n int) { c.mu.Lock(); c.evals += int64(n); c.mu.Unlock() }

// Count adds to a named counter reported under coverage.counters.
func (c *Ctx) Count(name string, n int64) {
	c.mu.Lock()
	c.counters[name] += n
	c.mu.Unlock()
}

// Counter reads a named counter.
func (c *Ctx) Counter(name string) int64 {
	c.mu.Lock()
	defer c.mu.Unlock()
	return c.counters[name]
}

// Nontrivial records the fingerprint of a non-trivial case; distinct
// fingerprints are counted as distinct_nontrivial.
func (c *Ctx) Nontrivial(fp string) {
	c.mu.Lock()
	if len(c.distinct) < 5_000_000 {
		c.distinct[fp] = struct{}{}
	}
	c.mu.Unlock()
}

// NontrivialHash is Nontrivial for large fingerprints (hashed).
func (c *Ctx) NontrivialHash(parts ...string) {
	h := fnv.New64a()
	for _, p := range parts {
		h.Write([]byte(p))
		h.Write([]byte{0})
	}
	c.Nontrivial(strconv.FormatUint(h.Sum64(), 36))
}

// Sample keeps a few actual cases for the evidence file.
func (c *Ctx) Sample(v any) {
	c.mu.Lock()
	if len(c.samples) < c.maxSamples {
		c.samples = append(c.samples, v)
	}
	c.mu.Unlock()
}

// Extra sets an additional coverage key.
func (c *Ctx) Extra(key string, v any) { c.mu.Lock(); c.extra[key] = v; c.mu.Unlock() }

// Inconclusive counts an execution that decided nothing.
func (c *Ctx) Inconclusive(reason string) {
	c.mu.Lock()
	c.inconclusive++
	c.inconReasons[reason]++
	c.mu.Unlock()
}

// Fatal marks the whole run as undecided (exit 2).
func (c *Ctx) Fatal(format string, a ...any) {
	c.mu.Lock()
	if c.fatalErr == "" {
		c.fatalErr = fmt.Sprintf(format, a...)
	}
	c.mu.Unlock()
}

// Violation reports a refuting observation. signature is a structural
// classification of the witness; if it equals a listed known finding of this
// property the observation is reported as KNOWN-FINDING and does not fail the
// run.
func (c *Ctx) Violation(signature, what string, witness any) {
	c.mu.Lock()
	defer c.mu.Unlock()
	for _, k := range c.known {
		if k.Signature == signature {
			c.knownSeen[signature]++
			return
		}
	}
	repeated := false
	for i := range c.violations {
		if c.violations[i].Signature == signature {
			repeated = true
			c.counters["violations_repeated_signature"]++
			if c.counters["violations_repeated_signature"] > 50 {
				return
			}
			break
		}
	}
	v := violation{Signature: signature, What: what, Witness: witness}
	// every distinct signature gets its replay file and VIOLATION line (up to
	// 300 signatures); repetitions only among the first 25 violations
	if (!repeated && len(c.violations) < 300) || len(c.violations) < 25 {
		dir := filepath.Join(Root(), "replays", c.ID)
		_ = os.MkdirAll(dir, 0o755)
		path := filepath.Join(dir, fmt.Sprintf("%s-seed%d-%03d.json", c.Tier, c.Seed, len(c.violations)))
		b, _ := json.MarshalIndent(map[string]any{
			"property": c.ID, "tier": c.Tier, "seed": c.Seed,
			"signature": signature, "what": what, "witness": witness,
		}, "", " ")
		_ = os.WriteFile(path, b, 0o644)
		v.Replay = path
		fmt.Printf("VIOLATION property=%s replay=%s\n", c.ID, path)
		fmt.Printf("  signature: %s\n  what: %s\n", signature, trunc(what, 600))
	}
	c.violations = append(c.violations, v)
}

// Violations returns the number of (unlisted) violations so far.
func (c *Ctx) Violations() int { c.mu.Lock(); defer c.mu.Unlock(); return len(c.violations) }

func trunc(s string, n int) string {
	if len(s) > n {
		return s[:n] + "…"
	}
	return s
}

// Trunc shortens a string for messages.
func Trunc(s string, n int) string { return trunc(s, n) }

func loadFindings(id string) []finding {
	b, err := os.ReadFile(filepath.Join(Root(), "known_findings.json"))
	if err != nil {
		return nil
	}
	var f findingsFile
	if err := json.Unmarshal(b, &f); err != nil {
		fmt.Fprintf(os.Stderr, "ERROR cannot parse known_findings.json: %v\n", err)
		os.Exit(2)
	}
	var out []finding
	for _, k := range f.Findings {
		if k.Property == id {
			out = append(out, k)
		}
	}
	return out
}

func (c *Ctx) finish() {
	c.mu.Lock()
	defer c.mu.Unlock()
	wall := time.Since(c.start).Seconds()

	sigs := make([]string, 0, len(c.knownSeen))
	for s := range c.knownSeen {
		sigs = append(sigs, s)
	}
	sort.Strings(sigs)
	for _, s := range sigs {
		for _, k := range c.known {
			if k.Signature == s {
				fmt.Printf("KNOWN-FINDING: property=%s %s [signature=%s, seen %d times]\n", c.ID, k.What, s, c.knownSeen[s])
			}
		}
	}

	cov := map[string]any{
		"evaluations":         c.evals,
		"distinct_nontrivial": len(c.distinct),
		"rule":                c.rule,
		"samples":             c.samples,
		"inconclusive":        c.inconclusive,
	}
	if len(c.samples) == 0 {
		cov["samples"] = []any{}
	}
	if c.exhaustive {
		cov["exhaustive"] = true
	}
	if len(c.inconReasons) > 0 {
		cov["inconclusive_reasons"] = c.inconReasons
	}
	if len(c.counters) > 0 {
		cov["counters"] = c.counters
	}
	if len(c.knownSeen) > 0 {
		cov["known_findings_seen"] = c.knownSeen
	}
	for k, v := range c.extra {
		cov[k] = v
	}
	if len(c.violations) > 0 {
		var vs []violation
		seenSig := map[string]bool{}
		for _, v := range c.violations {
			if !seenSig[v.Signature] && len(vs) < 60 {
				seenSig[v.Signature] = true
				vs = append(vs, v)
			}
		}
		short := make([]map[string]any, 0, len(vs))
		for _, v := range vs {
			short = append(short, map[string]any{"signature": v.Signature, "what": trunc(v.What, 400), "replay": v.Replay})
		}
		cov["violation_list"] = short
	}
	ev := map[string]any{
		"property_id": c.ID,
		"tier":        c.Tier,
		"seed":        c.Seed,
		"level":       c.Level,
		"coverage":    cov,
		"assumptions": c.assumptions,
		"wall_s":      wall,
		"violations":  len(c.violations),
	}
	if c.assumptions == nil {
		ev["assumptions"] = []string{}
	}
	b, err := json.MarshalIndent(ev, "", " ")
	if err != nil {
		fmt.Printf("ERROR cannot encode evidence: %v\n", err)
		os.Exit(2)
	}
	dir := filepath.Join(Root(), "evidence")
	_ = os.MkdirAll(dir, 0o755)
	if err := os.WriteFile(filepath.Join(dir, c.ID+".json"), b, 0o644); err != nil {
		fmt.Printf("ERROR cannot write evidence: %v\n", err)
		os.Exit(2)
	}

	fmt.Printf("%s %s seed=%d: evaluations=%d distinct_nontrivial=%d inconclusive=%d violations=%d known=%d wall=%.1fs\n",
		c.ID, c.Tier, c.Seed, c.evals, len(c.distinct), c.inconclusive, len(c.violations), len(c.knownSeen), wall)
	keys := make([]string, 0, len(c.counters))
	for k := range c.counters {
		keys = append(keys, k)
	}
	sort.Strings(keys)
	var sb strings.Builder
	for _, k := range keys {
		fmt.Fprintf(&sb, " %s=%d", k, c.counters[k])
	}
	if sb.Len() > 0 {
		fmt.Printf("  counters:%s\n", sb.String())
	}
	if len(c.inconReasons) > 0 {
		fmt.Printf("  inconclusive reasons: %v\n", c.inconReasons)
	}

	switch {
	case len(c.violations) > 0:
		os.Exit(1)
	case c.fatalErr != "":
		fmt.Printf("ERROR %s: %s\n", c.ID, c.fatalErr)
		os.Exit(2)
	case c.evals == 0 || len(c.distinct) < 2:
		fmt.Printf("ERROR %s: nothing decided (evaluations=%d distinct_nontrivial=%d)\n", c.ID, c.evals, len(c.distinct))
		os.Exit(2)
	}
	os.Exit(0)
}

// ReplayArg is the path given to `replay`, or "".
func (c *Ctx) ReplayArg() string { return c.replayArg }

// Main is the entry point of a check binary:
//
//	<bin> quick|thorough         run the check
//	<bin> replay <path>          print/re-run a recorded witness
//	<bin> child <name> <in> <out>  internal: run a child workload
func Main(id, level string, run func(*Ctx)) {
	args := os.Args[1:]
	if len(args) >= 1 && args[0] == "child" {
		runChildMode(args[1:])
		return
	}
	tier := "quick"
	replay := ""
	if len(args) >= 1 {
		switch args[0] {
		case "quick", "thorough":
			tier = args[0]
		case "replay":
			if len(args) < 2 {
				fmt.Println("usage: replay <path>")
				os.Exit(2)
			}
			replay = args[1]
		default:
			fmt.Printf("unknown mode %q\n", args[0])
			os.Exit(2)
		}
	} else if t := os.Getenv("VERIF_TIER"); t == "thorough" || t == "quick" {
		tier = t
	}
	seed := int64(1)
	if s := os.Getenv("VERIF_SEED"); s != "" {
		if v, err := strconv.ParseInt(s, 10, 64); err == nil {
			seed = v
		}
	}
	c := &Ctx{
		ID: id, Tier: tier, Seed: seed, Level: level, start: time.Now(),
		distinct: map[string]struct{}{}, maxSamples: 8, extra: map[string]any{},
		counters: map[string]int64{}, knownSeen: map[string]int{}, inconReasons: map[string]int{},
		known: loadFindings(id), replayArg: replay,
	}
	if replay != "" {
		b, err := os.ReadFile(replay)
		if err != nil {
			fmt.Printf("ERROR %v\n", err)
			os.Exit(2)
		}
		var w struct {
			Tier string `json:"tier"`
			Seed int64  `json:"seed"`
		}
		_ = json.Unmarshal(b, &w)
		fmt.Printf("replaying %s: re-running tier=%s seed=%d (witness follows)\n%s\n", replay, w.Tier, w.Seed, trunc(string(b), 4000))
		if w.Tier != "" {
			c.Tier = w.Tier
		}
		c.Seed = w.Seed
	}
	run(c)
	c.finish()
}

// ParallelFor runs fn(i) for i in [0,n) on `workers` goroutines.
func ParallelFor(n, workers int, fn func(i int)) {
	if workers < 1 {
		workers = 1
	}
	var wg sync.WaitGroup
	ch := make(chan int)
	for w := 0; w < workers; w++ {
		wg.Add(1)
		go func() {
			defer wg.Done()
			for i := range ch {
				fn(i)
			}
		}()
	}
	for i := 0; i < n; i++ {
		ch <- i
	}
	close(ch)
	wg.Wait()
}
