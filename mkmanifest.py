#!/usr/bin/env python3
"""Regenerates /verif/MANIFEST.json from the table below (kept in one place so
that the manifest stays valid while checks come online)."""
import json, os, subprocess

ROOT = os.path.dirname(os.path.abspath(__file__))

# id -> (level, technique, level text, level note, design ref)
CHECKS = {
}

PENDING_REASON = "check not built yet in this round (runtime-monitoring design in DESIGN.md §3); not claimed until its monitor exists and is silent on the unchanged tree"

def hook_commits():
    try:
        out = subprocess.check_output(["git", "-C", "/repo", "log", "--format=%H %s"], text=True)
    except Exception:
        return []
    return [l.split()[0] for l in out.splitlines() if l.split(" ", 1)[1].startswith("verif:")]

def main():
    props = [json.loads(l) for l in open(os.path.join(ROOT, "properties.jsonl"))]
    checks, na = [], []
    for p in props:
        pid = p["id"]
        if pid in CHECKS and os.path.isdir(os.path.join(ROOT, "harness", "cmd", pid.lower())):
            level, technique, text, note, ref = CHECKS[pid]
            checks.append({
                "property_id": pid,
                "quick_cmd": f"./run.sh {pid} quick",
                "thorough_cmd": f"./run.sh {pid} thorough",
                "evidence_file": f"/verif/evidence/{pid}.json",
                "replay_cmd_template": f"./run.sh {pid} replay {{path}}",
                "engine": "harness",
                "level_claimed": {"category": level, "text": text, "design_ref": ref},
                "level_note": note,
                "technique": technique,
            })
        else:
            na.append({"property_id": pid, "reason": PENDING_REASON})
    m = {
        "version": 1,
        "setup_cmd": "./setup.sh",
        "hooks": {
            "guard": "verif",
            "enable": "go build -tags verif (run.sh builds every check binary, and cmd/file.d for C03, from /repo's working tree with -tags verif; -race for the concurrency properties)",
            "baseline_off_cmd": "cd /repo && GOFLAGS=-mod=mod GOPROXY=off go test -json -vet=off -count=1 -timeout 25m ./...",
            "source_commits": hook_commits(),
            "add_only": True,
        },
        "engines": [{
            "name": "harness",
            "path": "/verif/harness",
            "serves_properties": [c["property_id"] for c in checks],
            "kind_free_text": "Go module: one monitor binary per property (cmd/cxx) over a shared runtime (core): child-process workloads of the real code, event-log oracles, reference models, race detector, gate/fault hooks (package verifhook, build tag verif)",
        }],
        "checks": checks,
        "not_applicable": na,
        "notes": "Technique family: runtime monitoring and sanitizers. Every check executes the real file.d code from /repo's working tree; verdicts: violated / held on what was observed / inconclusive (counted separately in the evidence). Known genuine defects are listed in known_findings.json (KNOWN-FINDING lines); repaired ones as 'fixed:' entries.",
    }
    json.dump(m, open(os.path.join(ROOT, "MANIFEST.json"), "w"), indent=1)
    print("checks:", [c["property_id"] for c in checks], "pending:", len(na))

if __name__ == "__main__":
    main()
