#!/usr/bin/env python3
"""Regenerates /verif/MANIFEST.json from the table below (kept in one place so
that the manifest stays valid while checks come online)."""
import json, os, subprocess

ROOT = os.path.dirname(os.path.abspath(__file__))

# id -> (level, technique, level text, level note, design ref)
CHECKS = {
 "C01": ("exploration", "runtime monitoring: offline oracle over recorded In/finalize/send-ack/Commit histories of the real pipeline under -race with seeded schedule perturbation",
   "Held on K recorded executions of the real pipeline (monitoring plugins only at the plugin boundary): every Commit seen by the input is checked against the recorded output acknowledgements and drops of all earlier events of its source+stream. Sampling of schedules/configurations, so 'held on what was observed'; rare orders are forced by delay plans, hook sleeps and worker counts and their occurrence is measured (completion inversions, discards overtaking in-flight events).",
   "trusts the monitoring input/output/script plugins and the finalize observer (build tag verif) to record faithfully; an event whose retries were exhausted without dead queue counts as finished", "DESIGN.md §3 C01"),
 "C02": ("exploration", "runtime monitoring: per-stream commit-order / exactly-once / idle-accounting oracle over recorded histories of the real pipeline under -race",
   "Held on K recorded executions: per (source, stream) commit offsets strictly increasing in read order, no double commit, and at idle every accepted event has exactly one commit or one silent drop.",
   "idle = readers finished and pool in-use 0 on three consecutive samples; same trusted base as C01", "DESIGN.md §3 C02"),
 "C04": ("exploration", "runtime monitoring: gate-directed lost-wake-up schedules on both event pools, pool stress, and bounded-progress (heartbeat-tick) watchdog over real pipelines with hold/join chains",
   "Liveness restated as bounded progress in logical heartbeat ticks: directed schedules place a reader inside the check-to-wait window of each pool and require a wake-up within 3 pool heartbeat ticks; whole pipelines must finalize every accepted event within a bounded number of streamer heartbeat ticks after the last progress. Unbounded 'eventually' is not decidable by a finite run.",
   "hook points (pool.*.beforeWait, *.tick) only count/block; outputs of these cases keep acknowledging", "DESIGN.md §3 C04"),
 "C05": ("exploration", "runtime monitoring: outstanding-set pool monitor (lower bound of in-flight), porcupine linearizability of get/back histories against a counting semaphore, race detector on event memory, leak accounting at idle",
   "Held on K executions: standalone pools of both kinds under concurrent get/back (capacity 1..8) and the same monitor wrapped around the pool of real pipelines; short histories are checked with porcupine; a race report on event memory counts as double ownership.",
   "pointer identity identifies an event object; the wrapper delegates unchanged", "DESIGN.md §3 C05"),
 "C08": ("exploration", "runtime monitoring: recorded Add/send/OutFn/Commit history of the real Batcher judged by an offline oracle (size bounds, tick-based staleness, commit order, exactly-once, Stop races) under -race",
   "Held on K executions of the real pipeline.Batcher driven through its exported API in child processes: batch size/byte bounds, staleness in heartbeat ticks (plus a wall-clock view that needs 3/3 solo confirmation), whole-batch in-order commits after OutFn returned, exactly-once, and Stop placed by a gate or at a drawn Add. A second family wraps the Batcher in the real RetriableBatcher (failing sends, give-ups, dead-queue flag, Stop while retrying): no commit without a successful send or a give-up, nothing stuck after a dead-queued batch.",
   "hook points batcher.tick/batcher.afterUnlock only count/block", "DESIGN.md §3 C08"),
 "C11": ("exploration", "runtime monitoring: reference line splitter vs the real http input under exhaustive small-scope chunkings, gzip, large bodies, and concurrent requests under -race",
   "Exhaustive over a small scope (all bodies over a 3-symbol alphabet up to length 7/9 x all read chunkings x EOF styles) plus seeded large bodies and concurrent requests; the recording controller and response writer share one logical clock. A third family runs the plugin on a real loopback listener, uploads a body in pieces over raw TCP and calls Stop at a rendezvous point: a 2xx answer implies the complete body was handed over.",
   "the recording controller copies data inside In; gzip writer of the stdlib is trusted", "DESIGN.md §3 C11"),
 "C12": ("exploration", "runtime monitoring: crash detection in child processes with command log, buffer canaries, and reference parsers for every decoder",
   "Millions of generated/mutated lines per decoder and parameter set through Decode/DecodeToJson/DecodeCRI/DecodePostgres and Pipeline.In; totality (no crash, canaries intact), fidelity against independent reference parsers, json_max_fields_size postconditions. A size-gate boundary pass feeds records as sub-slices of a canaried reader buffer with max_event_size around the record length, cut-off on and off.",
   "reference parsers written from RFCs/readme; encoding/json is trusted for validity", "DESIGN.md §3 C12"),
 "C14": ("exploration", "runtime monitoring: naive three-valued reference evaluator vs real do_if checker and real match_fields path in a real pipeline; determinism re-evaluation",
   "Millions of (rule, event) pairs: decisions of doif.Checker.Check and of the real pipeline's action selection are compared with an evaluator written from the READMEs; pairs the docs leave open are only checked for determinism.",
   "the README is the specification; Go regexp is shared by both sides", "DESIGN.md §3 C14"),
 "C16": ("exploration", "runtime monitoring: dictionary reference model vs the real throttle plugin under a virtual clock; safety sums for concurrent runs",
   "Sequential histories are compared decision by decision with an independent dictionary model, concurrent ones with order-independent sums, and two-action pipelines against the same actions in separate pipelines.",
   "virtual clock installed through the verif accessor (same hook the package tests use)", "DESIGN.md §3 C16"),
 "C17": ("exploration", "runtime monitoring: reference rewrite model vs the real mask plugin in a real pipeline, child processes for crash attribution",
   "Generated regexps/group selections/modes/field lists and events; output document, applied marks and metric counters compared with a model built on Go regexp submatch indexes. A metrics matrix crosses applied_metric_name (absent / custom / explicit empty) with per-mask metrics and reads the real registry.",
   "Go regexp is shared by both sides (the oracle is about the rewrite)", "DESIGN.md §3 C17"),
 "C18": ("exploration", "runtime monitoring: naive projection/subtraction on an order-preserving JSON tree vs the real keep_fields/remove_fields plugins in a real pipeline",
   "Hundreds of thousands of (selector set, event) cases through the real config path; content and survivor key order compared separately. A history clause puts earlier real actions or direct tree mutations in front of the plugin (reference input recorded right before it), with a sweep over deletion counts and a twin run on the freshly decoded JSON.",
   "independent order-preserving JSON parser", "DESIGN.md §3 C18"),
 "C09": ("exploration", "runtime monitoring: per-batch retry/route oracle over recorded send attempts, give-ups, dead-queue hand-overs and commits of the real RetriableBatcher + Router inside real pipelines under -race",
   "Held on K recorded executions with scripted failure plans: failed sends before give-up >= retry+1, no give-up for negative retry, pauses above the randomised exponential lower envelope, no commit before the final send returned or gave up, on exhaustion every event handed to the dead queue exactly once and committed only after its acknowledgement, error callback once; includes Stop while retries are pending.",
   "pauses are lower bounds measured at the send boundary on the harness clock; the dead queue is a Batcher-based output that acknowledges", "DESIGN.md §3 C09"),
 "C20": ("exploration", "runtime monitoring: admission oracle over the real Pipeline.In (sizes, cut-off, decoders, PassEvent) and a possible-worlds reference model of the antispam counter mechanism over sequential and concurrent IsSpam/Maintenance histories",
   "Part A: every record is classified refused/delivered(+cut, mark) by an oracle written from the settings' documentation and compared with what In returns and what reaches the output; Part B: antispam decisions compared with a reference that keeps every documented reading open and checks the count-based claims. Part A.live drives antispam histories through a started pipeline (maintenance rounds counted through a verif-tag tick hook); Part A.conc pushes the same records through In from 2-8 goroutines and compares with the sequential run.",
   "antispam README is the specification of the counter mechanism; no wall clock", "DESIGN.md §3 C20"),
 "C15": ("exploration", "runtime monitoring: per-(source,stream) reference model of run reassembly vs the real join / join_template / k8s-multiline actions inside real multi-processor pipelines under -race; time-out splits accepted only where the harness's own clock shows a feeder gap >= event_timeout",
   "Each case is a real pipeline with several sources x streams over 1-16 processors; every output event is decided by a reference model (ids, joined bytes, order, no loss/duplicate/foreign bytes); lines carry source/stream/index tags. The monitoring output reads events late (encodes again after 0-32 later events: must not have changed); joining actions also run with match conditions and non-matching events inside runs.",
   "Go regexp is shared for start/continue classification; pauses are measured in streamer heartbeat ticks", "DESIGN.md §3 C15"), "C06": ("exploration", "runtime monitoring: reference line splitter vs the real file-input worker/provider on real temp files (exhaustive small scope + seeded large cases + plugin-level sample)",
   "Every In(offset, data) call of the real worker.work is compared per source and read round with an independent line splitter, exhaustively over newline placements x buffer sizes x limits x append splits x resume modes, plus a directed family with write notifications inside a read round.",
   "accessor runs the real worker over jobs created and re-queued by the provider's own functions (build tag verif)", "DESIGN.md §3 C06"),
 "C07": ("fault_enumeration", "runtime monitoring with fault injection: round trip of job tables through the real offsetDB save/load, kill/error at every step of save, concurrent commits vs saves on a logical clock, strace syscall-order monitor (fsync before rename)",
   "Enumerates crash points (5 protocol points) and I/O faults (injected errors, RLIMIT_FSIZE short write, strace-injected fsync EIO, ENOENT, EXDEV) of the save protocol for the file offsetDB and the generic offset package; after each the file on disk must load to the previous or the new snapshot. A large-table matrix (64 KiB-900 KiB snapshots) injects an error or a kill at every write step and real short writes.",
   "process kill stands for a crash; power-loss durability is represented by the observed fsync-before-rename order only", "DESIGN.md §3 C07"),
 "C10": ("exploration", "runtime monitoring: the real kafka input against a loopback stub broker (kmsg), packing and frontier oracles over marked and broker-committed offsets under -race",
   "The real plugin runs unmodified (Start, group join, PollRecords, spread In, Commit, auto-commit) against an in-harness broker; every marked head and every OffsetCommit is checked against the handed records (topic/partition/epoch/offset+1) and against the set of finished records of the partition.",
   "the stub broker implements only the APIs the client uses; broker-side redelivery by a second consumer run is not exercised", "DESIGN.md §3 C10"),
 "C19": ("exploration", "runtime monitoring: independent framing parsers over payloads captured at the transport of the real output plugins (loopback HTTP/TCP sinks, target file, recording Kafka client)",
   "Real elasticsearch/http/splunk/loki/gelf/file/kafka outputs driven through Out -> Batcher -> out with hostile field values, child/parent events, buffer reuse across batches, retries and 413 split patterns; each payload must parse to exactly the batch's deliverable events in order. Transport-failure cases use several endpoints with dead ones (refused, reset, hang-up, 5xx) and connection cuts, gzip bodies decoded member by member.",
   "strict JSON reference parser of the harness; the Kafka client is replaced by a recorder through the verif accessor", "DESIGN.md §3 C19"), "C13": ("exploration", "runtime monitoring: crash detection (child processes with on-disk event index) and output validity (encoding/json) for every action plugin under hostile events, inside real single-action and chained pipelines",
   "Every registered action plus k8s-multiline, 5-16 accepted configurations each, driven with directed and seeded hostile events (absent/null/bool/huge number/float/empty/long/invalid UTF-8/object/array values of the configured fields), stateful ones with time-outs; the process must survive and every output must be valid JSON that re-parses. Further clauses: every configuration again with 8 processors against one (decoded outputs equal), chains of event.Buf users over pooled events against a step-by-step reference, and a node-pool boundary sweep (decoding actions followed by field-adding actions, start pool sizes 16 and 128).",
   "a configuration rejected by the plugin's own validation is discarded; encoding/json decides validity", "DESIGN.md §3 C13"), "C03": ("fault_enumeration", "runtime monitoring with crash injection: the real file.d binary (build tag verif) is run, killed at enumerated crash points (hook-armed SIGKILL at commit/save/ack points, external kill -9) and restarted with its offsets file; set difference of written vs delivered line ids",
   "Scenarios = history (appends while down, rename rotation, partial lines, 1-3 streams per file, join/discard chains, truncation matrix) x config (persistence mode, workers, buffers, batch settings) x kill plan (every crash point in both persistence modes, drawn external kills); idle is decided from file.d's own maintenance ticks; every complete line must be in the output of one of the two runs. Further history families: held unterminated tails, truncation while down, namesake sources, and a new file obtaining the inode of a file that went away after the start phase.",
   "process kill stands for a crash; the file output's target file is the delivery record; the README's documented truncation caveat is outside the scenarios", "DESIGN.md §3 C03"),
}

# clauses added in round 5 (appended to the level text of the check)
ROUND5 = {
 "C03": " Round 5: one of the stream values carries the ': ' separator of the offsets file.",
 "C07": " Round 5: temp files left behind by a save killed in an earlier process life (first or second save of that life, four protocol points) must not affect fault-free saves of a later life; an offsetDB that loaded the file and then saves the table of its present jobs (some gone, some advanced, some new) must leave exactly that table.",
 "C11": " Round 5: 'overlap' family (several uploads aborted mid-body, then uploads interleaved by a turn scheduler at every body Read and inside In; every datum attributed to its request) and 'big' family (gzip and plain bodies beyond 32 and 64 MiB, regenerated line by line, complete hand-over).",
 "C13": " Round 5: directed truncation sweep - every cut of every dictionary line (log lines cut at any byte) on every referenced field of every configuration.",
 "C14": " Round 5: part D selector chains - groups of 2-4 neighbouring actions with identical / permuted / nearly identical / unrelated selectors (match_fields and do_if) where applied actions set, add or remove exactly the fields later selectors read; each action's selector is judged on the event as that action receives it.",
 "C15": " Round 5: actions behind the joining action (discard with match conditions or do_if, modify, both orders; runs dropped there are accounted as deliberately dropped, order and byte conservation judged on what reaches the output) and join fields that are not JSON strings inside and outside runs.",
 "C16": " Round 5: 'many' clause - rule lists of 4-110 rules (counts around 26/27, 32/33, 52/53, 64/65) with one (key, bucket) seen through many rules with distinct limits, plus a model-free rule-isolation replay.",
 "C17": " Round 5: long mask lists (61-72 fillers before three masks with field lists of their own, mask indices beyond 64), masks with do_if judged by the model, and a parallel pass (8 processors started from one config pointer) whose outputs must be byte-identical to the single-processor pipeline.",
 "C19": " Round 5: 'bigfile' family - the file output behind the real Batcher with 2-8 workers, events encoding to 260 KiB-3 MiB, seal-ups in between; every produced file judged line by line.",
 "C20": " Round 5: B.fold (antispam exceptions, records and source names with non-ASCII letters in every case spelling; all modes x case_insensitive x invert) and B.foldlen (letters whose lower-case form has another UTF-8 length; the cut-before-lower-casing defect of cfg/matchrule is a listed finding).",
}

ROUND5_TECH = {
 "C07": "; histories over several process lives (leftover temp files of a killed save, load-then-save after a restart)",
 "C11": "; deterministic turn scheduler interleaving overlapping uploads after aborted ones; regenerated large bodies",
 "C14": "; chain monitor following each event along neighbouring actions whose earlier members mutate the fields later selectors read",
 "C15": "; actions behind the joining action and non-string join fields",
 "C16": "; many-rule lists with a rule-isolation replay",
 "C17": "; multi-processor differential pass (outputs byte-identical to the single-processor pipeline)",
 "C19": "; concurrent workers writing very large events through the real Batcher into the file output",
 "C20": "; Unicode case-folding families with a diagnostic hypothesis model for the listed length-change defect",
}

PENDING_REASON = "check not built yet in this round (runtime-monitoring design in DESIGN.md §3); not claimed until its monitor exists and is silent on the unchanged tree"

def hook_commits():
    try:
        out = subprocess.check_output(["git", "-C", "/repo", "log", "--format=%H %s"], text=True)
    except Exception:
        return []
    return [l.split()[0] for l in out.splitlines() if l.split(" ", 1)[1].startswith("verif:")]

def main():
    props = [json.loads(l) for l in open(os.path.join(ROOT, "properties.jsonl"))]
    checks, na = [], []
    for p in props:
        pid = p["id"]
        if pid in CHECKS and os.path.isdir(os.path.join(ROOT, "harness", "cmd", pid.lower())):
            level, technique, text, note, ref = CHECKS[pid]
            text += ROUND5.get(pid, "")
            technique += ROUND5_TECH.get(pid, "")
            checks.append({
                "property_id": pid,
                "quick_cmd": f"./run.sh {pid} quick",
                "thorough_cmd": f"./run.sh {pid} thorough",
                "evidence_file": f"/verif/evidence/{pid}.json",
                "replay_cmd_template": f"./run.sh {pid} replay {{path}}",
                "engine": "harness",
                "level_claimed": {"category": level, "text": text, "design_ref": ref},
                "level_note": note,
                "technique": technique,
            })
        else:
            na.append({"property_id": pid, "reason": PENDING_REASON})
    m = {
        "version": 1,
        "setup_cmd": "./setup.sh",
        "hooks": {
            "guard": "verif",
            "enable": "go build -tags verif (run.sh builds every check binary, and cmd/file.d for C03, from /repo's working tree with -tags verif; -race for the concurrency properties)",
            "baseline_off_cmd": "cd /repo && GOFLAGS=-mod=mod GOPROXY=off go test -json -vet=off -count=1 -timeout 25m ./...",
            "source_commits": hook_commits(),
            "add_only": True,
        },
        "engines": [{
            "name": "harness",
            "path": "/verif/harness",
            "serves_properties": [c["property_id"] for c in checks],
            "kind_free_text": "Go module: one monitor binary per property (cmd/cxx) over a shared runtime (core): child-process workloads of the real code, event-log oracles, reference models, race detector, gate/fault hooks (package verifhook, build tag verif)",
        }],
        "checks": checks,
        "not_applicable": na,
        "notes": "Technique family: runtime monitoring and sanitizers. Every check executes the real file.d code from /repo's working tree; verdicts: violated / held on what was observed / inconclusive (counted separately in the evidence). Known genuine defects are listed in known_findings.json (KNOWN-FINDING lines); repaired ones as 'fixed:' entries.",
    }
    json.dump(m, open(os.path.join(ROOT, "MANIFEST.json"), "w"), indent=1)
    print("checks:", [c["property_id"] for c in checks], "pending:", len(na))

if __name__ == "__main__":
    main()
