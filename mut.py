#!/usr/bin/env python3
"""Overlay mutant runner: mut.py <repo-rel-file> <old> <new> -- <cmd...>
Builds a -overlay JSON replacing /repo/<file> by a copy with old->new (first
occurrence, must exist) and runs cmd with VERIF_OVERLAY set. /repo untouched."""
import sys, os, json, tempfile, subprocess, shutil
args = sys.argv[1:]
i = args.index("--")
file, old, new = args[0], args[1], args[2]
cmd = args[i+1:]
src = open(os.path.join("/repo", file)).read()
old = old.encode().decode("unicode_escape"); new = new.encode().decode("unicode_escape")
if src.count(old) < 1:
    print("mut.py: pattern not found"); sys.exit(3)
d = tempfile.mkdtemp(prefix="verif-mut-")
try:
    mf = os.path.join(d, os.path.basename(file))
    open(mf, "w").write(src.replace(old, new, 1))
    ov = os.path.join(d, "overlay.json")
    json.dump({"Replace": {os.path.join("/repo", file): mf}}, open(ov, "w"))
    env = dict(os.environ, VERIF_OVERLAY=ov)
    rc = subprocess.call(cmd, env=env)
    print("mut.py: exit", rc)
    sys.exit(rc)
finally:
    shutil.rmtree(d, ignore_errors=True)
