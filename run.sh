#!/bin/bash
# Entry point of every check:  ./run.sh <Cxx> quick|thorough|replay <path>
# Rebuilds the check binary from /repo's current working tree (build tag
# `verif`, -race for the concurrency properties) and runs it.
set -u
cd "$(dirname "$0")"
here="$PWD"
# VERIF_OUT_ROOT (seedrun.py): evidence / replays / known findings of a run
# against a changed tree live in a scratch root, not in /verif
export VERIF_ROOT="${VERIF_OUT_ROOT:-$PWD}"
export GOFLAGS=-mod=mod GOPROXY=off
unset GOSUMDB GOTOOLCHAIN 2>/dev/null || true
export CGO_ENABLED=${CGO_ENABLED:-1}

id="${1:?usage: run.sh <Cxx> quick|thorough|replay <path>}"
mode="${2:-${VERIF_TIER:-quick}}"
shift; shift || true
lc=$(echo "$id" | tr 'A-Z' 'a-z')

# properties whose workloads are concurrent run under the race detector
race=""
case "$id" in
  C01|C02|C04|C05|C08|C09|C10|C11|C15) race="-race" ;;
esac
[ "${VERIF_NORACE:-}" = 1 ] && race=""

if [ ! -d "harness/cmd/$lc" ]; then
  echo "ERROR no check for $id"; exit 2
fi
mkdir -p bin evidence replays
overlay=()
[ -n "${VERIF_OVERLAY:-}" ] && overlay=(-overlay "$VERIF_OVERLAY")

build() { # build <out> <pkg> [extra flags]
  local out=$1 pkg=$2; shift; shift
  (cd harness && go build -tags verif "${overlay[@]}" "$@" -o "../bin/$out" "$pkg") 2>bin/build-$id.$$.log
  local rc=$?
  if [ $rc -ne 0 ]; then
    echo "ERROR build failed for $id ($pkg):"; tail -30 bin/build-$id.$$.log; rm -f bin/build-$id.$$.log; exit 2
  fi
}
# every invocation builds and runs its own binary (concurrent runs, possibly
# with different overlays, must not replace each other's binaries)
mybin="$lc.$$"
trap 'rm -f "bin/$mybin" "bin/file.d-verif.$$" "bin/build-$id.$$.log"' EXIT
build "$mybin" "./cmd/$lc" $race
if [ "$id" = C03 ]; then
  (cd /repo && go build -tags verif "${overlay[@]}" -o "$here/bin/file.d-verif.$$" ./cmd/file.d) 2>bin/build-$id-filed.log || {
    echo "ERROR build of cmd/file.d failed:"; tail -30 bin/build-$id-filed.log; exit 2; }
  export VERIF_FILED_BIN="$here/bin/file.d-verif.$$"
fi

"./bin/$mybin" "$mode" "$@"
exit $?
