#!/usr/bin/env python3
"""seedstore.py: copies every confirmed seeded change into /verif/seeded/<name>/
(patch.diff, demo/, meta.json) from the scratch results of seedconfirm.py
(/tmp/seedconfirm/<name>.json) and seedrun.py (/tmp/seedconfirm/<name>.detect)."""
import json, os, re, glob, shutil, sys
OUT = "/verif/seeded"
os.makedirs(OUT, exist_ok=True)
rows = []
for cf in sorted(glob.glob("/tmp/seedconfirm/C*.json")):
    name = os.path.basename(cf)[:-5]
    c = json.load(open(cf))
    if not c.get("confirmed"):
        continue
    patch = c["patch"]
    src = os.path.dirname(patch) if "/out" in patch else None
    m = re.match(r"(C\d\d)-([A-Z]\d?)", name)
    pid, x = m.group(1), m.group(2)
    rnd = int(x[1]) if len(x) > 1 else 1
    srcdir = f"/tmp/seed/{pid}/out{rnd if rnd > 1 else ''}/{x[0]}"
    meta = json.load(open(os.path.join(srcdir, "meta.json")))
    d = os.path.join(OUT, name)
    shutil.rmtree(d, ignore_errors=True)
    os.makedirs(os.path.join(d, "demo"))
    shutil.copy(patch, os.path.join(d, "patch.diff"))
    rebased = False
    import subprocess
    if subprocess.run(["git", "-C", "/repo", "apply", "--check", os.path.join(d, "patch.diff")], capture_output=True).returncode != 0:
        # later hook / fix commits touched neighbouring lines: store the 3-way applied form
        wt = "/tmp/verif-seedstore-wt"
        subprocess.run(["git", "-C", "/repo", "worktree", "remove", "--force", wt], capture_output=True)
        subprocess.run(["git", "-C", "/repo", "worktree", "add", "-q", "--detach", wt, "HEAD"], check=True)
        try:
            r = subprocess.run(["git", "-C", wt, "apply", "-3", "--whitespace=nowarn", os.path.join(d, "patch.diff")], capture_output=True)
            if r.returncode == 0:
                diff = subprocess.run(["git", "-C", wt, "diff", "HEAD"], capture_output=True, text=True).stdout
                open(os.path.join(d, "patch.diff"), "w").write(diff)
                rebased = True
            else:
                print("WARNING: patch of", name, "does not apply to /repo HEAD")
        finally:
            subprocess.run(["git", "-C", "/repo", "worktree", "remove", "--force", wt], capture_output=True)
    for f in glob.glob(os.path.join(srcdir, "demo", "*")):
        if os.path.isfile(f):
            shutil.copy(f, os.path.join(d, "demo"))
    det = []
    df = f"/tmp/seedconfirm/{name}.detect"
    caught_by = []
    if os.path.exists(df):
        cur = None
        for l in open(df, errors="replace"):
            l = l.rstrip("\n")
            if l.startswith("### "):
                cur = {"check": l.split("->")[1].strip(), "signatures": [], "exit": None}
                det.append(cur)
            elif cur is not None and "signature:" in l:
                cur["signatures"].append(l.split("signature:", 1)[1].strip())
            elif cur is not None and l.startswith("exit "):
                cur["exit"] = int(l.split()[1])
                if cur["exit"] == 1:
                    caught_by.append(cur["check"])
            elif cur is not None and re.match(r"C\d\d (quick|thorough)", l):
                cur["summary"] = l
    out = {
        "property": pid, "round": rnd, "origin": "independent sub-agent given only the property text and a scratch worktree",
        "summary": meta.get("summary"), "why_it_breaks": meta.get("why_it_breaks"),
        "needs_to_manifest": meta.get("needs_to_manifest"), "files_changed": meta.get("files_changed"),
        "demo_files": meta.get("demo_files"), "demo_cmd": c.get("demo_cmd"),
        "patch_rebased_by_coordinator": "/seedreb/" in patch or rebased,
        "confirmed_in_scratch_worktree": {
            "what_was_run": "seedconfirm.py: scratch worktree of /repo HEAD; demo without the change (must pass), git apply, go build ./..., demo with the change (must fail), go test -count=1 of the touched packages with the change (must pass)",
            "demo_without_change_rc": c["demo_without_change"]["rc"], "build_rc": c["build"]["rc"],
            "demo_with_change_rc": c["demo_with_change"]["rc"], "demo_with_change_tail": c["demo_with_change"]["tail"][-400:],
            "existing_tests": c["existing_tests"]["pkgs"], "existing_tests_rc": c["existing_tests"]["rc"],
        },
        "checks_run_against_it": det, "caught_by": caught_by,
        "how_checks_were_run": "seedrun.py <patch> <Cxx> quick: the patched files are substituted at build time (go build -overlay) so /repo is never modified while other work uses it",
    }
    json.dump(out, open(os.path.join(d, "meta.json"), "w"), indent=1)
    rows.append((name, pid, ",".join(caught_by) or "-", (meta.get("summary") or "")[:110].replace("\n", " ").replace("|", "/")))
tab = "| seed | caught by (quick tier) | change |\n|---|---|---|\n" + "\n".join(f"| {n} | {cb} | {s} |" for n, p, cb, s in rows)
open("/tmp/seedconfirm/table.md", "w").write(tab)
print(tab)
